"""C17 - scalar special functions and vector spherical harmonics match their definitions (structural clauses)."""
import itertools, math
import sympy as sp
from sympy import Symbol, Function, S, sqrt, Rational
from ..ir import AnalysisBroken, Undecided, show, strip, strip_casts, walk_stmts, stmt_exprs, walk_expr, calls, all_exprs
from .. import guards as G
from ..symx import Symx, State, Arr, is_zero, Sign2

L = 'libphysica::'


def outcomes(prog, fn, **kw):
    sx = Symx(prog, fn, **kw)
    return sx, sx.run()


def select(outs, sub):
    return [o for o in outs if o.cond.subs(sub) == S.true]


def check(prog, ctx):
    ctx.rule('C17.a', 'Sign(x) is 1/0/-1 by the order of x and 0; Sign(x,y) returns x iff Sign(x)==Sign(y) else -x; StepFunction is 1 iff x>=0 '
             '(complete tables over the orderings)', 3)
    ctx.rule('C17.b', 'Relative_Difference is symmetric and total: its divisor max(|a|,|b|) vanishes only at a=b=0 and that case is excluded by '
             'a guard returning 0; Floats_Equal is the comparison of it with the tolerance', 3)
    ctx.rule('C17.c', 'oddness by construction: Dawson small branch is an odd polynomial, the branch test is even, the large branch uses x only '
             'through |x| and one Sign(.,x); Round(-N) = -Round(N)', 2)
    ctx.rule('C17.d', 'Erfi = 2/sqrt(pi) exp(x^2) Dawson(x); Inv_Erf solves erf(x)=p by the root finder on a bracket symmetric about 0 with '
             'absolute tolerance 1e-4', 2)
    ctx.rule('C17.e', 'Dawson: small-argument polynomial equals the Maclaurin series x-2x^3/3+4x^5/15-8x^7/105; large branch is Rybicki\'s sum '
             '(n0 even nearest to x/H, e1=exp(2 xp H), terms c_i(e1/d1+1/(d2 e1)) with d1+=2,d2-=2,e1*=e1^2, c_i=exp(-((2i+1)H)^2), prefactor 1/sqrt(pi))', 2)
    ctx.rule('C17.f', 'vector-harmonic tables: every branch of VSH_Y_Component equals the closed-form coefficient of rhat*Y_lm; VSH_Psi_Component '
             'equals kappa times the Y coefficient with kappa=-l for lhat=l+1 and l+1 for lhat=l-1; zero outside the selection rules; the drivers '
             'sum over lhat in {l-1,l+1}, mhat in {m-1,m,m+1}, |mhat|<=lhat', 42)
    ctx.sub('signs', signs, prog, ctx)
    ctx.sub('reldiff', reldiff, prog, ctx)
    ctx.sub('dawson', dawson, prog, ctx)
    ctx.sub('compositions', compositions, prog, ctx)
    ctx.sub('vsh', vsh, prog, ctx)
    ctx.rule('C17.g', 'dependency: Inv_Erf returns the root found by Find_Root; it inherits the obligations of C02 about that function '
             '(bracket handling, Ridders update, stopping test)', 8)
    ctx.inherit('C02', lambda o: o.rule.startswith('C02.'), 'C17.g', 'Inv_Erf')


def signs(prog, ctx):
    fn = prog.fn(L + 'Sign', 1)
    sx, outs = outcomes(prog, fn)
    x = sx.symbol(fn.params[0]['name'], 'double')
    bad = []
    for v, want in ((-2.5, -1), (0, 0), (3, 1), (-1e-300, -1), (1e-300, 1)):
        sel = select(outs, {x: v})
        if len(sel) != 1 or sel[0].kind != 'return' or not isinstance(sel[0].value, sp.Basic) or sel[0].value.subs({x: v}) != want:
            bad.append((v, [str(o.value) for o in sel]))
    ctx.decide('C17.a', 'Sign(x)', fn, not bad, '1 for x>0, 0 for x==0, -1 for x<0', 'Sign(x) table differs: %s' % bad)
    fn2 = prog.fn(L + 'Sign', 2)
    sx, outs = outcomes(prog, fn2)
    x, y = sx.symbol(fn2.params[0]['name'], 'double'), sx.symbol(fn2.params[1]['name'], 'double')
    bad = []
    for xv, yv in itertools.product((-2, 0, 3), (-1, 0, 4)):
        sel = select(outs, {x: xv, y: yv})
        want = xv if (xv > 0) - (xv < 0) == (yv > 0) - (yv < 0) else -xv
        if len(sel) != 1 or sel[0].kind != 'return' or sp.simplify(sel[0].value.subs({x: xv, y: yv}) - want) != 0:
            bad.append((xv, yv, [str(o.value) for o in sel]))
    ctx.decide('C17.a', 'Sign(x,y)', fn2, not bad, 'x if Sign(x)==Sign(y) else -x on all 9 sign combinations', 'Sign(x,y) table differs: %s' % bad)
    fn3 = prog.fn(L + 'StepFunction')
    sx, outs = outcomes(prog, fn3)
    x = sx.symbol(fn3.params[0]['name'], 'double')
    bad = []
    for v, want in ((-2, 0), (0, 1), (5, 1), (-1e-300, 0)):
        sel = select(outs, {x: v})
        if len(sel) != 1 or not isinstance(sel[0].value, sp.Basic) or sel[0].value.subs({x: v}) != want:
            bad.append((v, [str(o.value) for o in sel]))
    ctx.decide('C17.a', 'StepFunction', fn3, not bad, '1 iff x>=0', 'StepFunction table differs: %s' % bad)


def reldiff(prog, ctx):
    fn = prog.fn(L + 'Relative_Difference')
    sx, outs = outcomes(prog, fn)
    a, b = sx.symbol(fn.params[0]['name'], 'double'), sx.symbol(fn.params[1]['name'], 'double')
    rets = [o for o in outs if o.kind == 'return']
    want = sp.Abs(a - b) / sp.Max(sp.Abs(a), sp.Abs(b))
    main = [o for o in rets if o.value != 0]
    okf = len(main) == 1 and is_zero(main[0].value - want)
    sym = len(main) == 1 and is_zero(main[0].value - main[0].value.subs({a: b, b: a}, simultaneous=True))
    ctx.decide('C17.b', 'Relative_Difference:form', fn, okf and sym, '|a-b|/max(|a|,|b|), symmetric under a<->b',
               'Relative_Difference returns %s' % [str(o.value) for o in rets])
    # E7: zero set of the divisor vs guards
    ok0 = False
    detail = 'no main path'
    if len(main) == 1:
        num, den = sp.fraction(sp.together(main[0].value))
        # the divisor vanishes exactly at a=b=0: is that point excluded from the dividing path, and what is returned there?
        c0 = main[0].cond.subs({a: 0, b: 0})
        at0 = [o for o in rets if o.cond.subs({a: 0, b: 0}) == S.true]
        ok0 = (c0 == S.false) and len(at0) == 1 and at0[0].value == 0
        detail = 'divisor %s vanishes at a=b=0; dividing path condition at (0,0): %s; value returned there: %s' % (den, c0, [str(o.value) for o in at0])
    ctx.decide('C17.b', 'Relative_Difference:zero-divisor', fn, ok0, 'a=b=0 is excluded from the division and returns 0',
               'the division by max(|a|,|b|) is reachable for a=b=0 (0/0 = NaN): Floats_Equal(0,0) is false, i.e. not reflexive; ' + detail,
               witness={'input': 'a=0, b=0', 'reproducer': 'Floats_Equal(0.0, 0.0) returns false'} if not ok0 else None)
    fe = prog.fn(L + 'Floats_Equal')
    sx, outs = outcomes(prog, fe)
    RD = Function(L + 'Relative_Difference', real=True)
    pa, pb, tol = [sx.symbol(p['name'], 'double') for p in fe.params]
    t = [o for o in outs if o.kind == 'return' and o.value == S.true]
    f = [o for o in outs if o.kind == 'return' and o.value == S.false]
    okfe = len(t) == 1 and len(f) == 1 and t[0].cond == sp.Lt(RD(pa, pb), tol)
    if len(outs) == 1 and outs[0].kind == 'return':
        okfe = outs[0].value == sp.Lt(RD(pa, pb), tol)
    ctx.decide('C17.b', 'Floats_Equal', fe, okfe, 'true iff Relative_Difference(a,b) < tol', 'Floats_Equal paths: %s' % [(str(o.cond), str(o.value)) for o in outs])


def dawson(prog, ctx):
    fn = prog.fn(L + 'Dawson_Integral')
    xname = fn.params[0]['name']
    # branch test
    ifs = [s for s in fn.body['body'] if s['k'] == 'If']
    if not ifs or (len(ifs) > 1 and any(i_.get('else') is not None for i_ in ifs)):
        ctx.undecided('C17.c', 'Dawson:branches', fn, 'expected one branch chain')
        return
    br = ifs[0]
    flat_extra = ifs[1:]        # canonical IR: `if(a) {..return} if(b) {..return} rest` for an else-if chain whose branches all return
    # further `else if` branches between the small-argument series and the final (Rybicki) branch
    extra = []
    tail = br.get('else')
    while tail is not None:
        t_ = tail
        if t_.get('k') == 'Compound' and len(t_.get('body', [])) == 1:
            t_ = t_['body'][0]
        if t_.get('k') != 'If':
            break
        extra.append(t_)
        tail = t_.get('else')
    if flat_extra:
        top = fn.body['body']
        pos = [top.index(i_) for i_ in ifs]
        if pos != list(range(pos[0], pos[0] + len(pos))):
            ctx.undecided('C17.c', 'Dawson:branches', fn, 'branches are separated by other statements')
            return
        extra = list(flat_extra)
        tail = {'k': 'Compound', 'body': top[pos[-1] + 1:]}
    sx = Symx(prog, fn)
    st = State({})
    for s in fn.body['body']:
        if s is br:
            break
        sx.exec(s, [st])
    x = sx.symbol(xname, 'double')
    cond = sx.as_bool(sx.sym(br['cond'], st))
    even = cond.subs(x, -x) == cond
    # small branch
    st_small = st.fork()
    live, done = sx.exec(br['then'], [st_small])
    # (canonical IR: every branch ends in its own return; the large-argument branch is what follows the small one)
    srets = [o for o in done if o.kind == 'return']
    small = srets[0].value if len(srets) == 1 and not live else None
    large_body = br['else'] if br.get('else') is not None else {'k': 'Compound', 'body': fn.body['body'][fn.body['body'].index(br) + 1:]}
    extra_odd = True
    if extra:
        large_body = tail if tail is not None else {'k': 'Compound', 'body': fn.body['body'][fn.body['body'].index(br) + 1:]}
        for eb in extra:
            extra_odd = asymptotic_branch(ctx, fn, sx, st, x, eb) and extra_odd
    okodd = small is not None and is_zero(small + small.subs(x, -x))
    series = x - 2 * x ** 3 / 3 + 4 * x ** 5 / 15 - 8 * x ** 7 / 105
    okser = small is not None and is_zero(small - series)
    # truncation bound at the switch point (alternating Maclaurin series: error <= first omitted term 16 t^9/945)
    thr = None
    if isinstance(cond, (sp.Lt, sp.Le)) and cond.lhs == sp.Abs(x) and cond.rhs.is_number:
        thr = float(cond.rhs)
    elif isinstance(cond, (sp.Gt, sp.Ge)) and cond.rhs == sp.Abs(x) and cond.lhs.is_number:
        thr = float(cond.lhs)
    if thr is None:
        ctx.undecided('C17.e', 'Dawson:switch-point', fn, 'branch test is not |x| < constant: %s' % cond)
    else:
        rem = 16 * thr ** 9 / 945
        rel = rem / (thr * (1 - 2 * thr ** 2 / 3))
        ctx.decide('C17.e', 'Dawson:switch-point', fn, rem <= 2e-7 and rel <= 1e-6,
                   'series is used for |x| < %g where its remainder bound 16 t^9/945 = %.2g <= 2e-7 (relative %.2g <= 1e-6 for Erfi)' % (thr, rem, rel),
                   'series is used up to |x| = %g where its remainder bound 16 t^9/945 = %.3g exceeds the 2e-7 absolute (or %.3g the 1e-6 relative Erfi) accuracy'
                   % (thr, rem, rel), witness={'x': thr, 'remainder_bound': rem})
    ctx.decide('C17.e', 'Dawson:series', fn, okser, 'small branch expands to x-2x^3/3+4x^5/15-8x^7/105',
               'small-argument polynomial is %s' % (sp.expand(small) if small is not None else None), form=str(small))
    # large branch: x only through fabs(x) and one Sign(.,x)
    uses = []
    parents = {}
    for s in walk_stmts(large_body):
        for e in stmt_exprs(s):
            for n in walk_expr(e):
                if n.get('k') == 'Call':
                    for i, a_ in enumerate(n.get('args', [])):
                        a_ = strip_casts(a_)
                        if a_.get('k') == 'Ref' and a_.get('name') == xname and a_.get('rk') == 'param':
                            uses.append(((n.get('callee') or {}).get('name'), i))
                if n.get('k') == 'Ref' and n.get('name') == xname and n.get('rk') == 'param':
                    parents[id(n)] = n
    nref = len(parents)
    oklarge = nref == len(uses) and sorted(uses) == [('Sign', 1), ('fabs', 0)] or sorted(uses) == [('Sign', 1), ('abs', 0)]
    ctx.decide('C17.c', 'Dawson:odd', fn, bool(even and okodd and oklarge and extra_odd),
               'branch test even in x, small branch odd, large branch uses x only via |x| and Sign(.,x)',
               'oddness by construction fails: test even=%s, small branch odd=%s, uses of x in the large branch=%s' % (even, okodd, uses))
    rybicki(prog, ctx, fn, large_body, sx, st, x)
    # Round
    rd = prog.fn(L + 'Round', 2, pred=lambda f: f.params[0]['ty'] == 'double')
    sxr, outs = outcomes(prog, rd)
    N = sxr.symbol(rd.params[0]['name'], 'double')
    main = [o for o in outs if o.kind == 'return' and o.value != 0]
    zero = [o for o in outs if o.kind == 'return' and o.value == 0]
    okr = len(main) == 1 and len(zero) == 1 and zero[0].cond.subs(N, 0) == S.true
    if okr:
        v = main[0].value
        okr = sp.simplify(v + v.subs(N, -N)) == 0
    ctx.decide('C17.c', 'Round:odd', rd, okr, 'Round(0)=0 and Round(-N) = -Round(N) by construction (sign(N)*g(|N|))',
               'Round is not odd by construction: %s' % [str(o.value)[:200] for o in main])


def asymptotic_branch(ctx, fn, sx, st, x, eb):
    """An added large-argument branch of Dawson_Integral: it must be a partial sum of the asymptotic series
    F(x) ~ sum_k (2k-1)!!/(2^(k+1) x^(2k+1)) used only where the first omitted term is below the accuracy of the property.
    Returns whether the branch keeps the function odd."""
    R = 'C17.e'
    inst = 'Dawson:asymptotic-branch'
    cond = sx.as_bool(sx.sym(eb['cond'], st))
    stb = st.fork()
    live, done = sx.exec(eb['then'], [stb])
    rets = [o for o in done if o.kind == 'return']
    if live or len(rets) != 1 or not isinstance(rets[0].value, sp.Basic):
        ctx.undecided(R, inst, fn, 'an additional branch whose value is not one closed form')
        return True
    val = rets[0].value
    odd = bool(is_zero(val + val.subs(x, -x))) and cond.subs(x, -x) == cond
    thr = None
    if isinstance(cond, (sp.Gt, sp.Ge)) and cond.lhs == sp.Abs(x) and cond.rhs.is_number:
        thr = float(cond.rhs)
    elif isinstance(cond, (sp.Lt, sp.Le)) and cond.rhs == sp.Abs(x) and cond.lhs.is_number:
        thr = float(cond.lhs)
    if thr is None or thr <= 0:
        ctx.undecided(R, inst, fn, 'an additional branch whose test is not |x| > constant: %s' % cond)
        return odd
    w = sp.Symbol('w', positive=True)
    try:
        pw = sp.Poly(sp.expand(sp.nsimplify(sp.simplify(val.subs(x, 1 / w)), rational=True)), w)
    except Exception:
        ctx.undecided(R, inst, fn, 'an additional branch for |x| > %g whose value is not a polynomial in 1/x: %s' % (thr, val))
        return odd
    def a(k):
        return sp.factorial2(2 * k - 1) / sp.Integer(2) ** (k + 1)
    deg = pw.degree()
    K = (deg - 1) // 2
    want = sum(a(k) * w ** (2 * k + 1) for k in range(K + 1))
    partial = deg % 2 == 1 and sp.expand(pw.as_expr() - want) == 0
    tol_abs, tol_rel = 2e-7, 1e-6
    if partial:
        omitted = float(a(K + 1)) / thr ** (2 * K + 3)
        rel = omitted * 2 * thr
        if omitted > tol_abs or rel > tol_rel:
            ctx.decide(R, inst, fn, False, '',
                       'for |x| > %g the function returns the asymptotic series truncated after the x^-%d term; all later terms are positive and the first omitted one, '
                       '%s/x^%d, is %.3g at the switch point: above the 2e-7 absolute accuracy of Dawson_Integral (relative %.3g against 1e-6 for Erfi)'
                       % (thr, 2 * K + 1, a(K + 1), 2 * K + 3, omitted, rel), witness={'x': thr * (1 + 1e-4), 'first_omitted_term': omitted}, form=str(val))
        else:
            ctx.undecided(R, inst, fn, 'an asymptotic branch for |x| > %g (first omitted term %.3g): its remainder is not bounded by this analysis' % (thr, omitted))
    else:
        # not a partial sum of the asymptotic series: size of the discrepancy at the switch point against the series truncated at its smallest term
        kbest = max(K + 1, int(thr * thr))
        ref = sum(float(a(k)) / thr ** (2 * k + 1) for k in range(min(kbest, 60) + 1))
        dev = abs(float(pw.as_expr().subs(w, 1 / sp.Float(thr))) - ref)
        if dev > 4 * tol_abs:
            ctx.decide(R, inst, fn, False, '',
                       'for |x| > %g the function returns %s, which is not a partial sum of the asymptotic series 1/(2x)+1/(4x^3)+3/(8x^5)+...: at the switch point it '
                       'differs from the series by %.3g (> 2e-7)' % (thr, val, dev), witness={'x': thr * (1 + 1e-4), 'deviation': dev}, form=str(val))
        else:
            ctx.undecided(R, inst, fn, 'an additional branch for |x| > %g that is not a partial sum of the asymptotic series (deviation %.3g at the switch point)' % (thr, dev))
    return odd


def rybicki(prog, ctx, fn, large_body, sx, st, x):
    R = 'C17.e'
    stl = st.fork()
    body = large_body['body'] if large_body['k'] == 'Compound' else [large_body]
    loops = [s for s in body if s['k'] == 'For']
    if len(loops) != 2:
        ctx.undecided(R, 'Dawson:rybicki', fn, 'expected the coefficient loop and the summation loop (found %d loops)' % len(loops))
        return
    cur = stl
    for s in body:
        if s is loops[1]:
            break
        live, done = sx.exec(s, [cur])
        cur = live[0]
    H = Rational('0.4')
    # coefficient table
    ctab = [v for v in cur.env.values() if isinstance(v, Arr) and v.defs]
    k = Symbol('k', integer=True)
    okc = any(is_zero(sp.simplify(v.read((k,)) - sp.exp(-((2 * k + 1) * H) ** 2))) for v in ctab)
    entry, cond, live, done, n0 = sx.loop_step(loops[1], cur)
    p = live[0]
    ents = {kk: v for kk, v in entry.items() if isinstance(v, Symbol)}
    out = {kk: p.env.get(kk) for kk in ents}
    xx = sp.Abs(x)
    # roles by update
    k_d1 = [kk for kk in ents if out[kk] is not None and is_zero(out[kk] - ents[kk] - 2)]
    k_d2 = [kk for kk in ents if out[kk] is not None and is_zero(out[kk] - ents[kk] + 2)]
    k_e1 = [kk for kk in ents if out[kk] is not None and kk not in k_d1 + k_d2 and not sp.cancel(out[kk] / ents[kk]).has(ents[kk])
            and sp.cancel(out[kk] / ents[kk]) != 1 and kk != sx.counter_key(loops[1], cur)]
    probs = []
    if not okc:
        probs.append('coefficient table is not exp(-((2i+1)H)^2)')
    if len(k_d1) != 1 or len(k_d2) != 1 or len(k_e1) != 1:
        probs.append('d1/d2/e1 updates not recognised (%d,%d,%d)' % (len(k_d1), len(k_d2), len(k_e1)))
    else:
        d1, d2, e1 = ents[k_d1[0]], ents[k_d2[0]], ents[k_e1[0]]
        n0s = [v for v in cur.env.values() if isinstance(v, sp.Basic) and v.has(Function('trunc'))] if False else None
        d1_0, d2_0, e1_0 = cur.env.get(k_d1[0]), cur.env.get(k_d2[0]), cur.env.get(k_e1[0])
        e2 = sp.cancel(out[k_e1[0]] / e1)
        tr = Function('trunc', integer=True)
        n0e = 2 * tr(xx / (2 * H) + Rational(1, 2))
        xp = xx - n0e * H
        want = {'d1': n0e + 1, 'd2': n0e - 1, 'e1': sp.exp(2 * xp * H), 'e2': sp.exp(2 * xp * H) ** 2}
        got = {'d1': d1_0, 'd2': d2_0, 'e1': e1_0, 'e2': e2}
        for nm in want:
            try:
                if not is_zero(sp.simplify(sp.nsimplify(got[nm]) - want[nm])):
                    probs.append('%s starts as %s, expected %s' % (nm, got[nm], want[nm]))
            except Exception as e:
                probs.append('%s not comparable: %s' % (nm, got[nm]))
        # summand
        ks = [kk for kk in ents if kk not in (k_d1[0], k_d2[0], k_e1[0]) and out[kk] is not None and kk != sx.counter_key(loops[1], cur)]
        okterm = False
        iv = [v for kk_, v in ents.items() if kk_ == sx.counter_key(loops[1], cur)]
        for kk in ks:
            delta = out[kk] - ents[kk]
            q = sp.simplify(delta / (e1 / d1 + 1 / (d2 * e1)))
            if not (q.has(d1) or q.has(d2) or q.has(e1)) and iv and is_zero(sp.simplify(q - sp.exp(-((2 * iv[0] + 1) * H) ** 2))):
                okterm = True
        if not okterm:
            probs.append('summand is not exp(-((2i+1)H)^2)*(e1/d1 + 1/(d2*e1))')
    # prefactor 1/sqrt(pi) and the sign transfer
    pref_ok = False
    for e in all_exprs(fn):
        if e.get('k') == 'Lit' and e.get('lk') == 'float':
            try:
                if abs(float(e['val']) - 1 / math.sqrt(math.pi)) < 2e-9:
                    pref_ok = True
            except ValueError:
                pass
    if not pref_ok:
        probs.append('prefactor 1/sqrt(pi)=0.5641895835 not found')
    cl = sx.counted(loops[1], cur, allow_extra_inc=True)
    if not cl or cl[1] != 0 or cl[2] != 6:
        probs.append('summation does not run over the 6 table entries')
    ctx.decide(R, 'Dawson:rybicki', fn, not probs, 'large branch is Rybicki\'s exponentially convergent sum with H=0.4, 6 terms each side',
               '; '.join(probs), witness={'problems': probs} if probs else None)


def compositions(prog, ctx):
    fn = prog.fn(L + 'Erfi')
    sx, outs = outcomes(prog, fn)
    x = sx.symbol(fn.params[0]['name'], 'double')
    D = Function(L + 'Dawson_Integral', real=True)
    v = outs[0].value if len(outs) == 1 else None
    ctx.decide('C17.d', 'Erfi', fn, v is not None and is_zero(v - 2 / sqrt(sp.pi) * sp.exp(x ** 2) * D(x)), '2/sqrt(pi) exp(x^2) Dawson(x)',
               'Erfi returns %s' % v, form=str(v))
    ie = prog.fn(L + 'Inv_Erf')
    cs = [c for c in calls(ie) if (c.get('callee') or {}).get('q') == L + 'Find_Root']
    ok = False
    detail = 'no Find_Root call'
    if len(cs) == 1:
        sx = Symx(prog, ie)
        outs = sx.run()
        p = sx.symbol(ie.params[0]['name'], 'double')
        main = [o for o in outs if o.kind == 'return' and isinstance(o.value, sp.core.function.AppliedUndef) and o.value.func.__name__ == L + 'Find_Root']
        if len(main) == 1:
            args = main[0].value.args
            lam = None
            for e in all_exprs(ie, into_lambdas=False):
                if e.get('k') == 'Lambda':
                    lam = e
            lam_ok = False
            if lam is not None:
                lx = lam['fn']['params'][0]['name']
                rs = [s for s in walk_stmts(lam['fn']['body']) if s['k'] == 'Return']
                if len(rs) == 1:
                    sxl = Symx(prog, None)
                    val = sxl.sym(rs[0]['e'], State({}))
                    lam_ok = is_zero(val - (sp.erf(Symbol(lx, real=True)) - Symbol(ie.params[0]['name'], real=True)))
            try:
                lo, hi, tol = float(args[1]), float(args[2]), float(args[3])
                ok = lam_ok and lo == -hi and hi >= 6 and abs(tol - 1e-4) < 1e-12
                detail = 'root of erf(x)-p on [%g,%g], tolerance %g, integrand ok=%s' % (lo, hi, tol, lam_ok)
            except (TypeError, ValueError):
                detail = 'bracket/tolerance not constant: %s' % (args,)
    ctx.decide('C17.d', 'Inv_Erf', ie, ok, detail, 'Inv_Erf wiring is wrong: ' + detail)


# closed-form coefficients of rhat*Y_lm in the Y_{l+-1, m+-1 | m} basis: (component, dl, dm) -> (phase, sign, radicand)
def y_spec(l, m):
    A = lambda num, dl: num / ((2 * l + (3 if dl == 1 else -1)) * (2 * l + 1))
    T = {}
    rad = {(1, 1): (l + m + 1) * (l + m + 2), (1, -1): (l - m + 1) * (l - m + 2), (-1, 1): (l - m - 1) * (l - m), (-1, -1): (l + m - 1) * (l + m)}
    sx_ = {(1, 1): -1, (1, -1): 1, (-1, 1): 1, (-1, -1): -1}
    sy_ = {(1, 1): 1, (1, -1): 1, (-1, 1): -1, (-1, -1): -1}
    for (dl, dm), r in rad.items():
        T[(0, dl, dm)] = Rational(sx_[(dl, dm)], 2) * sqrt(A(r, dl))
        T[(1, dl, dm)] = sp.I * Rational(sy_[(dl, dm)], 2) * sqrt(A(r, dl))
    T[(2, 1, 0)] = sqrt(A((l - m + 1) * (l + m + 1), 1))
    T[(2, -1, 0)] = sqrt(A((l - m) * (l + m), -1))
    return T


def vsh(prog, ctx):
    R = 'C17.f'
    tabs = {}
    for name in ('VSH_Y_Component', 'VSH_Psi_Component'):
        fn = prog.fn(L + name)
        sx = Symx(prog, fn, real_ints=True)
        outs = sx.run()
        comp, l, m, lh, mh = [sx.symbol(p['name'], 'int') for p in fn.params]
        tabs[name] = (fn, outs, (comp, l, m, lh, mh))
    spec_cache = {}
    pts = [(3, 1), (4, -2), (5, 0), (2, 2), (6, -3)]

    def value_at(fn, outs, syms, c, lv, mv, dl, dm):
        comp, l, m, lh, mh = syms
        sub = {comp: c, l: lv, m: mv, lh: lv + dl, mh: mv + dm}
        sel = [o for o in outs if o.cond.subs(sub) == S.true]
        if len(sel) != 1:
            return None, 'paths=%d' % len(sel)
        if sel[0].kind != 'return':
            return None, 'exit'
        v = sel[0].value
        return sp.N(sp.sympify(v).subs(sub)), sel[0]

    fnY, outsY, symsY = tabs['VSH_Y_Component']
    fnP, outsP, symsP = tabs['VSH_Psi_Component']
    for c in (0, 1, 2):
        for dl in (-2, -1, 0, 1, 2):
            for dm in (-2, -1, 0, 1, 2):
                if abs(dl) == 2 and abs(dm) == 2:
                    continue
                inst = 'c%d:dl%+d:dm%+d' % (c, dl, dm)
                badY, badP = [], []
                for lv, mv in pts:
                    ls, ms = Symbol('l'), Symbol('m')
                    spec = y_spec(lv, mv).get((c, dl, dm), 0)
                    if lv + dl < 0 or abs(mv + dm) > lv + dl:
                        # outside the driver's filter |mhat| <= lhat; coefficient irrelevant
                        continue
                    want = sp.N(spec)
                    gy, info = value_at(fnY, outsY, symsY, c, lv, mv, dl, dm)
                    if gy is None or abs(complex(gy) - complex(want)) > 1e-12:
                        badY.append('(l=%d,m=%d): code %s, closed form %s' % (lv, mv, gy, want))
                    kappa = -lv if dl == 1 else (lv + 1 if dl == -1 else 0)
                    wantp = want * kappa
                    gp, info = value_at(fnP, outsP, symsP, c, lv, mv, dl, dm)
                    if gp is None or abs(complex(gp) - complex(wantp)) > 1e-12:
                        badP.append('(l=%d,m=%d): code %s, kappa*Y = %s' % (lv, mv, gp, wantp))
                if (c, dl, dm) in y_spec(3, 1) or True:
                    ctx.decide(R, 'Y:' + inst, fnY, not badY, 'coefficient equals the closed form of rhat*Y_lm at %d sample (l,m)' % len(pts),
                               'VSH_Y_Component differs from the closed form: %s' % badY[:2], witness={'mismatches': badY[:3]} if badY else None)
                    ctx.decide(R, 'Psi:' + inst, fnP, not badP, 'coefficient equals kappa times the Y coefficient (kappa=-l above, l+1 below)',
                               'VSH_Psi_Component differs from kappa*Y: %s' % badP[:2], witness={'mismatches': badP[:3]} if badP else None)
    # drivers
    for name, comp_q in (('Vector_Spherical_Harmonics_Y', 'VSH_Y_Component'), ('Vector_Spherical_Harmonics_Psi', 'VSH_Psi_Component')):
        fn = prog.fn(L + name)
        loops = [s for s in walk_stmts(fn.body) if s['k'] == 'For']
        probs = []
        ln, mn = fn.params[0]['name'], fn.params[1]['name']
        cs = [c_ for c_ in calls(fn) if (c_.get('callee') or {}).get('q') == L + comp_q]
        roles = None
        if len(cs) == 1 and len(cs[0]['args']) == 5:
            a_ = [strip_casts(x_) for x_ in cs[0]['args']]
            if all(x_.get('k') == 'Ref' for x_ in a_) and a_[1].get('name') == ln and a_[2].get('name') == mn:
                roles = {'component': a_[0], 'l_hat': a_[3], 'm_hat': a_[4]}
        if roles is None:
            probs.append('coefficient call is %s, expected %s(component, %s, %s, l_hat, m_hat)' % ([show(c_) for c_ in cs], comp_q, ln, mn))
        by_id = {s_['init']['decls'][0]['id']: s_ for s_ in loops if s_.get('init') and s_['init'].get('k') == 'Decl' and len(s_['init']['decls']) == 1}
        if roles is not None and (len(loops) != 3 or any(roles[r_]['id'] not in by_id for r_ in roles)):
            probs.append('expected three nested loops over the component, l_hat and m_hat (found %d loops)' % len(loops))
        elif roles is not None:
            from ..guards import CEval
            from ..ir import stmt_children
            # the set of (component, l_hat, m_hat) for which the coefficient is added, from the loops and tests that enclose the call
            # (whatever their nesting order, and whether |m_hat| <= l_hat is a test or is folded into the loop bounds)
            def stack_to(node, acc):
                if any(x_ is cs[0] for e_ in stmt_exprs(node) for x_ in walk_expr(e_)) and node['k'] in ('Expr', 'Decl', 'Return'):
                    return acc
                if node.get('k') == 'If':
                    for key_, neg_ in (('then', False), ('else', True)):
                        if node.get(key_) is not None:
                            r_ = stack_to(node[key_], acc + [(node, neg_)])
                            if r_ is not None:
                                return r_
                    return None
                for ch_ in stmt_children(node):
                    r_ = stack_to(ch_, acc + ([(node, None)] if node['k'] == 'For' else []))
                    if r_ is not None:
                        return r_
                return None
            nest = stack_to(fn.body, [])
            gsc = G.GuardScan(prog, fn, {})
            names = {roles[r_]['name']: r_ for r_ in roles}
            uneval = []
            try:
                if nest is None:
                    raise Undecided('coefficient call not found under the loops')
                for (lv, mv) in ((3, 1), (2, 2), (2, -2), (1, 0), (4, -4), (0, 0)):
                    got = set()

                    def run(level, row):
                        if level == len(nest):
                            got.add((row[roles['component']['name']], row[roles['l_hat']['name']], row[roles['m_hat']['name']]))
                            return
                        node, neg = nest[level]
                        if node['k'] == 'If':
                            c_ = bool(CEval(prog, row).ev(gsc.subst(node['cond'])))
                            if c_ != bool(neg):
                                run(level + 1, row)
                            return
                        d = node['init']['decls'][0]
                        v = CEval(prog, row).ev(gsc.subst(d['init']))
                        for _ in range(16):
                            row2 = dict(row)
                            row2[d['name']] = v
                            if not CEval(prog, row2).ev(gsc.subst(node['cond'])):
                                break
                            run(level + 1, row2)
                            inc = strip(node['inc'])
                            if inc['k'] == 'Un' and inc['op'] == '++':
                                v += 1
                            elif inc['k'] == 'Bin' and inc['op'] == '+=':
                                v += CEval(prog, row2).ev(gsc.subst(inc['rhs']))
                            else:
                                raise Undecided('increment ' + show(inc))
                    run(0, {ln: lv, mn: mv})
                    want = set((c_, lh_, mh_) for c_ in (0, 1, 2) for lh_ in (lv - 1, lv + 1) for mh_ in (mv - 1, mv, mv + 1) if abs(mh_) <= lh_)
                    if got != want:
                        miss, extra = sorted(want - got), sorted(got - want)
                        probs.append('for (l,m)=(%d,%d) the terms (component,l_hat,m_hat) %s are missing and %s are extra' % (lv, mv, miss[:4], extra[:4]))
            except (Undecided, KeyError) as e:
                uneval.append('loop nest not evaluable: %s' % e)
            if uneval and not probs:
                ctx.undecided(R, name, fn, '; '.join(sorted(set(uneval))))
                continue
            lhn, mhn = roles['l_hat']['name'], roles['m_hat']['name']
            sh = [c_ for c_ in calls(fn) if (c_.get('callee') or {}).get('q') == L + 'Spherical_Harmonics']
            if len(sh) != 1 or [show(strip_casts(a_)) for a_ in sh[0]['args']] != [lhn, mhn, fn.params[2]['name'], fn.params[3]['name']]:
                probs.append('basis function call is %s' % [show(c_) for c_ in sh])
        ctx.decide(R, name, fn, not probs, 'sums coefficient(i,l,m,lhat,mhat)*Y_{lhat,mhat} over lhat in {l-1,l+1}, mhat in {m-1,m,m+1}, |mhat|<=lhat',
                   '; '.join(probs))

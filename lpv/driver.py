"""run one property's rule module over an extracted program."""
import os, time, importlib, traceback
from . import ir, report


def run_property(pid, prog, tier, write=True, out=print):
    t0 = time.time()
    ctx = report.Ctx(pid, tier, prog)
    mod = importlib.import_module('lpv.props.' + pid)
    try:
        if prog.goto:
            raise ir.AnalysisBroken('unstructured control flow (goto) appeared in the library; the tree analyses assume none')
        mod.check(prog, ctx)
    except ir.AnalysisBroken as e:
        ctx.undecided(pid, 'analysis', None, 'analysis broken: %s' % e)
    except ir.Undecided as e:
        ctx.undecided(pid, 'analysis', None, 'construct outside the understood fragment: %s' % e)
    except Exception as e:   # an internal error is never a pass and never a violation
        ctx.undecided(pid, 'analysis', None, 'internal error: %s\n%s' % (e, traceback.format_exc()[-1500:]))
    seed = int(os.environ.get('VERIF_SEED', '0') or 0)
    return report.finish(ctx, t0, seed, out=out, write=write), ctx



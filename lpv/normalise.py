"""IR normalisation: file-local helpers are folded back into their callers.

A free function that no header declares (static, anonymous namespace, or simply defined in one .cpp) is an
implementation detail of the public functions that call it.  Every rule in lpv/props reasons about the public
function; "extract helper" is the most common behaviour-preserving edit, so the IR the rules see is the one with
such helpers inlined:

  * expression helper  (body is `return e;`):  the call is replaced by e[params := args]            (anywhere)
  * statement helper   (straight body ending in at most one `return e;`, no other return): the body is hoisted
    in front of the statement that evaluates the call and the call replaced by e                     (only where
    hoisting keeps the evaluation order: initialisers, expression statements, return values, if/switch conditions,
    and not under && || ?: or a lambda)

Arguments are substituted for parameters when they are pure and the parameter is not written in the helper;
otherwise a copy `T p = arg;` is hoisted as well.  Anything else is left as a call (the rules then treat it as
opaque, as before).  The helpers stay in Program.functions (flag `local`).
"""
import copy
from . import ir

MAX_DEPTH = 4


def _nodes(x):
    """All dict nodes below x (statements and expressions alike), pre-order."""
    if isinstance(x, dict):
        yield x
        for v in x.values():
            if isinstance(v, (dict, list)):
                yield from _nodes(v)
    elif isinstance(x, list):
        for v in x:
            yield from _nodes(v)


def _pure(e):
    for n in ir.walk_expr(e, into_lambdas=False):
        k = n.get('k')
        if k == 'Lambda':
            return False
        if k == 'Un' and n.get('op') in ('++', '--'):
            return False
        if k == 'Bin' and n.get('op') in ('=', '+=', '-=', '*=', '/=', '%=', ','):
            return False
        if k == 'Call':
            c = n.get('callee') or {}
            if c.get('noreturn') or c.get('mutrefs'):
                return False
            if n.get('kind') == 'method' and not c.get('const') and c.get('inrepo'):
                return False
    return True


def _written_ids(body):
    out = set()
    for n in _nodes(body):
        k = n.get('k')
        tgt = None
        if k == 'Bin' and n.get('op') in ('=', '+=', '-=', '*=', '/=', '%='):
            tgt = n.get('lhs')
        elif k == 'Un' and n.get('op') in ('++', '--'):
            tgt = n.get('e')
        elif k == 'Call':
            c = n.get('callee') or {}
            for i in c.get('mutrefs', []):
                if i < len(n.get('args', [])):
                    t = ir.strip_casts(n['args'][i])
                    while t.get('k') == 'Index':
                        t = ir.strip_casts(t['base'])
                    if t.get('id'):
                        out.add(t['id'])
            if n.get('kind') == 'method' and not c.get('const'):
                tgt = n.get('obj')
        if tgt is not None:
            t = ir.strip_casts(tgt)
            while t.get('k') == 'Index':
                t = ir.strip_casts(t['base'])
            if t.get('id'):
                out.add(t['id'])
    return out


def _shape(fn):
    """('expr', e) | ('stmts', [stmts], e_or_None) | None"""
    body = fn.body
    if not body or body.get('k') != 'Compound':
        return None
    stmts = body['body']
    rets = [s for s in ir.walk_stmts(body) if s['k'] == 'Return']
    if len(stmts) == 1 and stmts[0]['k'] == 'Return' and stmts[0].get('e') is not None:
        return ('expr', stmts[0]['e'])
    if len(rets) > 1:
        return None
    if rets:
        if stmts[-1] is not rets[0]:
            return None
        return ('stmts', stmts[:-1], rets[0].get('e'))
    return ('stmts', stmts, None)


def _subst(tree, mapping):
    """Deep copy of tree with every Ref whose id is in mapping replaced by a copy of the mapped expression."""
    t = copy.deepcopy(tree)
    for n in list(_nodes(t)):
        if n.get('k') == 'Ref' and n.get('id') in mapping:
            rep = copy.deepcopy(mapping[n['id']])
            n.clear()
            n.update(rep)
    return t


def _unwrap_arg(a):
    a2 = a
    while isinstance(a2, dict) and a2.get('k') in ('Copy', 'DefaultArg'):
        a2 = a2['e']
    return a2


def _expand(prog, call, helper, depth):
    """-> (hoisted statements, replacement expression or None) or None if not expandable."""
    sh = _shape(helper)
    if sh is None or depth > MAX_DEPTH:
        return None
    args = call.get('args', [])
    if len(args) != len(helper.params):
        return None
    written = _written_ids(helper.body)
    mapping = {}
    pre = []
    for p, a in zip(helper.params, args):
        a = _unwrap_arg(a)
        if p.get('byref'):
            if not _pure(a):
                return None
            mapping[p['id']] = a
        elif p['id'] not in written and _pure(a):
            mapping[p['id']] = a
        else:
            if sh[0] == 'expr':
                return None
            pre.append({'k': 'Decl', 'l': call.get('l'), 'decls': [{'id': p['id'], 'name': p['name'], 'ty': p['ty'], 'tyw': p.get('tyw', p['ty']),
                                                                  'init': copy.deepcopy(a), 'l': call.get('l')}]})
    if sh[0] == 'expr':
        return [], _subst(sh[1], mapping)
    stmts = pre + [_subst(s, mapping) for s in sh[1]]
    rep = _subst(sh[2], mapping) if sh[2] is not None else None
    return stmts, rep


def _hoistable_exprs(s):
    k = s['k']
    if k == 'Decl':
        return [d['init'] for d in s['decls'] if d.get('init') is not None]
    if k in ('Expr', 'Return'):
        return [s['e']] if s.get('e') is not None else []
    if k in ('If', 'Switch'):
        return [s['cond']]
    return []


def _walk_strict(e):
    """Sub-expressions of e that are evaluated unconditionally (not under && || ?: or a lambda)."""
    if not isinstance(e, dict):
        return
    yield e
    k = e.get('k')
    if k == 'Lambda':
        return
    if k == 'Cond':
        yield from _walk_strict(e.get('c'))
        return
    if k == 'Bin' and e.get('op') in ('&&', '||'):
        yield from _walk_strict(e.get('lhs'))
        return
    for c in ir.expr_children(e):
        yield from _walk_strict(c)


def _local_callee(prog, n):
    if n.get('k') != 'Call':
        return None
    if n.get('kind') == 'method':
        # a helper method is only folded when it is called on the same object (`this`)
        if ir.strip(n.get('obj') or {}).get('k') != 'This':
            return None
    elif n.get('kind') not in ('func', None):
        return None
    c = n.get('callee') or {}
    f = prog.by_sig(c.get('sig'))
    if f is None or not f.d.get('helper'):
        return None
    return f


def _rewrite_expr_helpers(prog, root, depth):
    """Replace calls of expression helpers anywhere below root (in place)."""
    n_done = 0
    changed = True
    rounds = 0
    while changed and rounds < MAX_DEPTH:
        changed = False
        rounds += 1
        for n in list(_nodes(root)):
            f = _local_callee(prog, n)
            if f is None:
                continue
            sh = _shape(f)
            if sh is None or sh[0] != 'expr':
                continue
            r = _expand(prog, n, f, depth)
            if r is None:
                continue
            ty = n.get('ty')
            n.clear()
            n.update(r[1])
            n_done += 1
            changed = True
    return n_done


def _rewrite_stmt_list(prog, seq, depth):
    out = []
    count = 0
    for s in seq:
        guard = 0
        while guard < 16:
            guard += 1
            hit = None
            for e in _hoistable_exprs(s):
                for n in _walk_strict(e):
                    f = _local_callee(prog, n)
                    if f is not None:
                        r = _expand(prog, n, f, depth)
                        if r is not None:
                            hit = (n, r)
                            break
                if hit:
                    break
            if not hit:
                break
            n, (stmts, rep) = hit
            out.extend(stmts)
            count += 1
            if rep is None:
                # void helper: the call must be the whole expression statement
                if s['k'] == 'Expr' and ir.strip(s['e']) is n:
                    s = None
                    break
                n.clear()
                n.update({'k': 'Lit', 'lk': 'int', 'ty': 'int', 'v': '0', 'val': '0'})
            else:
                n.clear()
                n.update(rep)
        if s is not None:
            out.append(s)
    return out, count


def _rewrite_stmt(prog, s, depth):
    """Rewrite statement s in place; returns number of expansions."""
    count = 0
    k = s.get('k')
    if k == 'Compound':
        for c in s['body']:
            count += _rewrite_stmt(prog, c, depth)
        new, c2 = _rewrite_stmt_list(prog, s['body'], depth)
        if c2:
            # hoisted statements may themselves call helpers
            s['body'] = new
            count += c2
        return count
    for key in ('then', 'else', 'body', 'sub'):
        c = s.get(key)
        if isinstance(c, dict) and 'k' in c and key != 'sub':
            if c['k'] != 'Compound' and any(_local_callee(prog, n) for e in _hoistable_exprs(c) for n in _walk_strict(e)):
                s[key] = c = {'k': 'Compound', 'l': c.get('l'), 'body': [c]}
            count += _rewrite_stmt(prog, c, depth)
        elif isinstance(c, dict):
            count += _rewrite_stmt(prog, c, depth)
    if k == 'For' and isinstance(s.get('init'), dict):
        pass
    if k == 'Try':
        for h in s.get('handlers', []):
            count += _rewrite_stmt(prog, h, depth)
    return count


# File-local functions of the pinned tree that the rules analyse as functions in their own right (anchors).  Every
# other file-local function is a helper somebody extracted later and is folded into its callers.
ANCHORS = set('libphysica::' + n for n in (
    'Adaptive_Simpson_Integration', 'Check_Integration_Limits', 'Rebin', 'Integrate_MC_Vegas', 'Random_Point', 'MC_Volume',
    'Integrate_MC_Brute_Force', 'Miser', 'Integrate_MC_Miser', 'Householder_Matrix', 'Find_Eigenvector_Rayleigh',
    'GammaQint', 'GammaPser', 'GammaQcf', 'Gaussian_Kernel', 'Count_Lines'))


def _recursive(prog, f):
    seen, todo = set(), [f]
    while todo:
        g = todo.pop()
        for c in ir.calls(g):
            cc = c.get('callee') or {}
            if not cc.get('inrepo'):
                continue
            if cc.get('sig') == f.sig:
                return True
            h = prog.by_sig(cc.get('sig'))
            if h is not None and h.sig not in seen and h.d.get('local'):
                seen.add(h.sig)
                todo.append(h)
    return False


def known_signatures():
    import json, os
    pn = os.path.join(os.path.dirname(os.path.abspath(__file__)), 'param_names.json')
    try:
        return set(json.load(open(pn)).keys())
    except Exception:
        return None


_KNOWN = known_signatures()


def is_helper(prog, f):
    """A function somebody extracted later: a file-local free function that is not one of the pinned tree's own, or any
    library function or method (e.g. a small private inline predicate added to a class) whose signature the pinned tree
    does not have."""
    if f.is_lambda or f.d.get('ctor') or f.name.startswith('operator') or f.name.startswith('~'):
        return False
    if bool(f.d.get('local')) and f.q not in ANCHORS:
        return True
    if _KNOWN is not None and f.file.startswith(prog.root) and not f.is_pattern and not f.is_inst and f.sig not in _KNOWN and f.q not in ANCHORS:
        return True
    return False


def inline_local_helpers(prog):
    """Fold file-local helpers into their callers, in place.  Returns {caller sig: expansions}."""
    helpers = [f for f in prog.all_functions() if is_helper(prog, f) and not _recursive(prog, f)]
    for f in prog.all_functions():
        f.d['helper'] = f in helpers
    if not helpers:
        return {}
    done = {}
    # helpers first (so that helpers calling helpers are already flat), bounded rounds
    for rnd in range(MAX_DEPTH):
        any_change = False
        for f in helpers:
            if f.body is None:
                continue
            c = _rewrite_expr_helpers(prog, f.body, rnd) + _rewrite_stmt(prog, f.body, rnd)
            any_change |= bool(c)
        if not any_change:
            break
    for f in prog.all_functions(include_patterns=True):
        if f.d.get('helper') or f.body is None:
            continue
        c = _rewrite_stmt(prog, f.body, 0)
        c += _rewrite_expr_helpers(prog, f.body, 0)
        for i in f.inits:
            if i.get('init') is not None:
                c += _rewrite_expr_helpers(prog, i['init'], 0)
        if c:
            done[f.sig] = c
    # a helper all of whose calls were expanded is no longer part of the program the rules look at
    remaining = {}
    for f in prog.all_functions(include_patterns=True):
        if f.body is None or f.d.get('helper'):
            continue
        for n in _nodes(f.body):
            h = _local_callee(prog, n) if n.get('k') == 'Call' else None
            if h is not None:
                remaining[h.sig] = remaining.get(h.sig, 0) + 1
    for h in helpers:
        h.d['folded'] = remaining.get(h.sig, 0) == 0
    return done


# ----------------------------------------------------------------------------- range-for -> counted index loop
def _range_for_as_for(s):
    """for(T& x : v) body   ->   for(unsigned long x#i = 0; x#i < v.size(); x#i++) body[x := v[x#i]]
    Only for ranges that are plain lvalues of std::vector type; by-value loop variables must not be written in the body."""
    rng = ir.strip_casts(s.get('range') or {})
    var = s.get('var') or {}
    if not _lvalue_path(rng) or rng.get('k') == 'This' or not str(rng.get('ty', '')).replace('const ', '').startswith('std::vector<') or not var.get('id'):
        return None
    if _path_ids(rng) & _written_ids(s['body']):
        return None
    if not var.get('byref') and var['id'] in _written_ids(s['body']):
        return None
    vty = rng['ty']
    line = s.get('l')
    iid = 'rf:' + var['id']
    iname = var['name'] + '_i'
    iref = {'k': 'Ref', 'id': iid, 'name': iname, 'rk': 'local', 'ty': 'unsigned long', 'l': line}
    elem = {'k': 'Index', 'l': line, 'base': copy.deepcopy(rng), 'idx': copy.deepcopy(iref), 'q': vty + '::operator[]',
            'sig': vty + '::operator[](unsigned long)const', 'ty': var.get('ty')}
    body = _subst(s['body'], {var['id']: elem})
    size = {'k': 'Call', 'kind': 'method', 'l': line, 'args': [], 'obj': copy.deepcopy(rng), 'ty': 'unsigned long',
            'callee': {'cls': 'std::vector', 'const': True, 'name': 'size', 'q': vty + '::size', 'ret': 'unsigned long', 'sig': vty + '::size()const'}}
    f = {'k': 'For', 'l': line, 'from_range': True, 'range': s['range'], 'var': var,
         'init': {'k': 'Decl', 'l': line, 'decls': [{'id': iid, 'name': iname, 'ty': 'unsigned long', 'tyw': 'unsigned long', 'l': line,
                                                      'init': {'k': 'Lit', 'l': line, 'lk': 'int', 'ty': 'unsigned long', 'v': '0', 'val': '0'}}]},
         'cond': {'k': 'Bin', 'op': '<', 'l': line, 'ty': 'bool', 'lhs': copy.deepcopy(iref), 'rhs': size},
         'inc': {'k': 'Un', 'op': '++', 'post': True, 'l': line, 'ty': 'unsigned long', 'e': copy.deepcopy(iref)},
         'body': body}
    return f


def canonical_range_for(prog):
    """Rewrite every eligible range-based for into the equivalent counted index loop (in place). Returns the count."""
    n = 0
    for f in prog.all_functions(include_patterns=True):
        if f.body is None:
            continue
        for s in list(ir.walk_stmts(f.body)):
            # innermost first is not needed: the substitution copies the (already visited) body afresh
            pass
        changed = True
        while changed:
            changed = False
            for s in ir.walk_stmts(f.body):
                if s.get('k') == 'RangeFor':
                    g = _range_for_as_for(s)
                    if g is not None:
                        s.clear()
                        s.update(g)
                        n += 1
                        changed = True
                        break
    return n


# ----------------------------------------------------------------------------- local reference aliases
def _lvalue_path(e):
    """e is a chain of Ref/Member/This/Index (std::vector subscripts with pure index expressions)."""
    e = ir.strip_casts(e)
    k = e.get('k')
    if k in ('Ref', 'This'):
        return True
    if k == 'Member':
        return e.get('base') is None or _lvalue_path(e['base'])
    if k == 'Index':
        return _lvalue_path(e['base']) and _pure(e['idx']) and not any(n.get('k') == 'Call' for n in ir.walk_expr(e['idx']))
    return False


def _path_ids(e):
    """ids of the variables that determine WHICH object the lvalue path denotes (index variables, pointer-like bases)."""
    out = set()
    e = ir.strip_casts(e)
    while True:
        k = e.get('k')
        if k == 'Index':
            for n in ir.walk_expr(e['idx']):
                if n.get('id'):
                    out.add(n['id'])
            e = ir.strip_casts(e['base'])
        elif k == 'Member' and e.get('base') is not None:
            e = ir.strip_casts(e['base'])
        else:
            break
    return out


def resolve_reference_aliases(prog):
    """`T& r = <lvalue path>;` followed by uses of r  ->  the path itself, when nothing that selects the object (index
    variables) is written in the rest of the enclosing block.  In place; returns the number of aliases resolved."""
    n = 0
    for f in prog.all_functions(include_patterns=True):
        if f.body is None:
            continue
        changed = True
        rounds = 0
        while changed and rounds < 8:
            changed = False
            rounds += 1
            for s in ir.walk_stmts(f.body):
                if s.get('k') != 'Compound':
                    continue
                seq = s['body']
                for pos, st in enumerate(seq):
                    if st.get('k') != 'Decl' or len(st['decls']) != 1:
                        continue
                    d = st['decls'][0]
                    tyw = str(d.get('tyw', '')).strip()
                    if not tyw.endswith('&') or tyw.endswith('&&') or d.get('init') is None or d.get('static'):
                        continue
                    init = ir.strip_casts(d['init'])
                    if init.get('k') == 'Ref' and init.get('rk') == 'param':
                        pass
                    if not _lvalue_path(init) or init.get('k') == 'This':
                        continue
                    rest = {'k': 'Compound', 'body': seq[pos + 1:]}
                    if _path_ids(init) & _written_ids(rest):
                        continue
                    new_rest = _subst(rest, {d['id']: init})['body']
                    s['body'] = seq[:pos] + new_rest
                    n += 1
                    changed = True
                    break
                if changed:
                    break
    return n


# ----------------------------------------------------------------------------- canonical parameter names
def canonical_param_names(prog, table):
    """Alpha-rename the parameters of every function whose signature is in `table` (signature -> parameter names of the
    pinned tree) back to those names, so that rules may refer to a parameter by the name it has in the library's
    documentation.  Pure alpha-conversion: skipped for a function when the canonical name is already used by another
    declaration in it.  Returns the number of parameters renamed."""
    n = 0
    for f in prog.all_functions(include_patterns=True):
        names = table.get(f.sig)
        if not names or len(names) != len(f.params) or f.body is None:
            continue
        ren = {}
        for p, want in zip(f.params, names):
            if p.get('name') and want and p['name'] != want:
                ren[p['id']] = (p['name'], want)
        if not ren:
            continue
        used = set()
        for x in _nodes(f.body):
            if x.get('name') and x.get('id') and x.get('id') not in ren:
                used.add(x['name'])
        for p in f.params:
            if p['id'] not in ren:
                used.add(p['name'])
        if any(want in used for _, want in ren.values()):
            continue
        for p in f.params:
            if p['id'] in ren:
                p['name'] = ren[p['id']][1]
                n += 1
        for x in _nodes(f.body):
            if x.get('id') in ren and 'name' in x:
                x['name'] = ren[x['id']][1]
        for i in f.inits:
            for x in _nodes(i.get('init')):
                if x.get('id') in ren and 'name' in x:
                    x['name'] = ren[x['id']][1]
    return n


# ----------------------------------------------------------------------------- canonical shape of returns
def _terminates(s):
    """Statement s never completes normally (ends in return / a noreturn call on every path)."""
    if s is None:
        return False
    k = s.get('k')
    if k == 'Return':
        return True
    if k == 'Expr':
        e = ir.strip(s['e'])
        return e.get('k') == 'Call' and bool((e.get('callee') or {}).get('noreturn'))
    if k == 'Compound':
        return bool(s['body']) and _terminates(s['body'][-1])
    if k == 'If':
        return s.get('else') is not None and _terminates(s['then']) and _terminates(s['else'])
    return False


def _as_compound(s):
    if s is None:
        return {'k': 'Compound', 'body': []}
    if s.get('k') == 'Compound':
        return s
    return {'k': 'Compound', 'l': s.get('l'), 'body': [s]}


def _canon_returns(c):
    """c: Compound.  (1) the else of an `if` whose then-branch always returns/exits is spliced after it (guard-clause
    form); (2) a trailing `return e;` after an if/else is copied into both branches; (3) `x = E; return x;` -> `return E;`."""
    n = 0
    body = c['body']
    # (1) guard-clause form is canonical: `if(c){...return/exit} else {rest}` -> `if(c){...}` followed by rest
    for i, s in enumerate(body):
        if s.get('k') == 'If' and s.get('else') is not None and _terminates(s['then']):
            rest = _as_compound(s['else'])['body']
            s['else'] = None
            body[i + 1:i + 1] = rest
            n += 1
            break
    # (2)
    if len(body) >= 2 and body[-1].get('k') == 'Return' and body[-2].get('k') == 'If' and body[-2].get('else') is not None \
            and not _terminates(body[-2]) and not _terminates(body[-2]['then']):
        ret = body[-1]
        iff = body[-2]
        for key in ('then', 'else'):
            if not _terminates(iff[key]):
                br = _as_compound(iff[key])
                br['body'] = br['body'] + [copy.deepcopy(ret)]
                iff[key] = br
        del body[-1]
        n += 1
    # (3)
    if len(body) >= 2 and body[-1].get('k') == 'Return' and body[-1].get('e') is not None and body[-2].get('k') == 'Expr':
        r = ir.strip_casts(body[-1]['e'])
        a = ir.strip(body[-2]['e'])
        if r.get('k') == 'Ref' and r.get('rk') == 'local' and a.get('k') == 'Bin' and a.get('op') == '=' \
                and ir.strip(a['lhs']).get('k') == 'Ref' and ir.strip(a['lhs']).get('id') == r.get('id') and not r.get('byref'):
            body[-1] = dict(body[-1])
            body[-1]['e'] = a['rhs']
            del body[-2]
            n += 1
    return n


def canonical_returns(prog):
    total = 0
    for f in prog.all_functions(include_patterns=True):
        if f.body is None or f.body.get('k') != 'Compound':
            continue
        for _ in range(200):
            changed = 0
            for s in ir.walk_stmts(f.body):
                if s.get('k') == 'Compound':
                    changed = _canon_returns(s)
                    if changed:
                        break          # the tree changed: walk it afresh (never touch a detached sub-tree)
            total += changed
            if not changed:
                break
    return total


# ----------------------------------------------------------------------------- scalar brace initialisation
SCALARS = ('int', 'unsigned int', 'long', 'unsigned long', 'double', 'float', 'bool', 'char', 'short', 'unsigned short', 'long long', 'unsigned long long')


def unbrace_scalars(prog):
    """`const T x{v};` for a scalar T is `const T x = v;`"""
    n = 0
    for f in prog.all_functions(include_patterns=True):
        # member initialisers `m{v}` of scalar members are `m(v)`
        for mi in getattr(f, 'inits', None) or []:
            i = mi.get('init')
            if isinstance(i, dict) and i.get('k') == 'InitList' and len(i.get('elems', [])) == 1 and str(i.get('ty', '')).replace('const ', '').strip() in SCALARS:
                mi['init'] = i['elems'][0]
                n += 1
        if f.body is None:
            continue
        for x in _nodes(f.body):
            if x.get('k') == 'Decl':
                for d in x.get('decls', []):
                    i = d.get('init')
                    if isinstance(i, dict) and str(d.get('ty', '')).replace('const ', '').strip() in SCALARS:
                        j = i
                        while isinstance(j, dict) and j.get('k') in ('Cast', 'Copy') and isinstance(j.get('e'), dict):
                            j = j['e']
                        if isinstance(j, dict) and j.get('k') == 'InitList' and len(j.get('elems', [])) == 1:
                            d['init'] = j['elems'][0]
                            n += 1
                    elif isinstance(i, dict) and str(d.get('ty', '')).replace('const ', '').startswith('std::array<'):
                        # std::array is an aggregate around a C array: {{a, b, c}} after brace elision is the list {a, b, c}
                        j = i
                        while isinstance(j, dict) and j.get('k') in ('Cast', 'Copy') and isinstance(j.get('e'), dict):
                            j = j['e']
                        if isinstance(j, dict) and j.get('k') == 'InitList' and len(j.get('elems', [])) == 1 and \
                                isinstance(j['elems'][0], dict) and j['elems'][0].get('k') == 'InitList':
                            j['elems'] = j['elems'][0]['elems']
                            n += 1
    return n


# ----------------------------------------------------------------------------- iterator loop -> counted index loop
def _unwrap_copy(e):
    e = ir.strip_casts(e)
    while isinstance(e, dict) and e.get('k') in ('Construct', 'Copy') and (e.get('args') or e.get('e')):
        inner = [a for a in e.get('args', []) if a.get('k') != 'DefaultArg'] if e.get('k') == 'Construct' else [e['e']]
        if len(inner) != 1:
            break
        e = ir.strip_casts(inner[0])
    return e


def _iterator_for_as_for(s):
    """for(auto it = X.begin(); it != X.end(); ++it) body(*it, it->m)  ->  for(unsigned long it#i = 0; it#i < X.size(); it#i++) body(X[it#i])
    Only when `it` occurs in the body solely as `*it` or `it->`, and X is a std::vector lvalue path that the body does not restructure."""
    init, cond, inc = s.get('init'), s.get('cond'), s.get('inc')
    if not init or init.get('k') != 'Decl' or len(init['decls']) != 1 or cond is None or inc is None:
        return None
    d = init['decls'][0]
    if 'iterator' not in str(d.get('ty', '')) or d.get('init') is None:
        return None
    b = _unwrap_copy(d['init'])
    if not (b.get('k') == 'Call' and b.get('kind') == 'method' and (b.get('callee') or {}).get('name') in ('begin', 'cbegin') and not b.get('args')):
        return None
    X = ir.strip_casts(b['obj'])
    if not _lvalue_path(X) or X.get('k') == 'This' or not str(X.get('ty', '')).replace('const ', '').startswith('std::vector<'):
        return None
    c = ir.strip(cond)
    if not (c.get('k') == 'Call' and c.get('kind') == 'op' and c.get('op') in ('!=', '<') and len(c.get('args', [])) == 2):
        return None
    l, r = ir.strip_casts(c['args'][0]), _unwrap_copy(c['args'][1])
    if l.get('id') != d['id'] or not (r.get('k') == 'Call' and r.get('kind') == 'method' and (r.get('callee') or {}).get('name') in ('end', 'cend')
                                      and ir.show(ir.strip_casts(r['obj'])) == ir.show(X)):
        return None
    i = ir.strip(inc)
    if not (i.get('k') == 'Call' and i.get('kind') == 'op' and i.get('op') == '++' and ir.strip_casts(i['args'][0]).get('id') == d['id']):
        return None
    if _path_ids(X) & _written_ids(s['body']):
        return None
    vty = str(X['ty']).replace('const ', '')
    ety = vty[len('std::vector<'):-1] if vty.endswith('>') else 'double'
    line = s.get('l')
    iid = 'it:' + d['id']
    iname = d['name'] + '_i'
    iref = {'k': 'Ref', 'id': iid, 'name': iname, 'rk': 'local', 'ty': 'unsigned long', 'l': line}
    elem = {'k': 'Index', 'l': line, 'base': copy.deepcopy(X), 'idx': copy.deepcopy(iref), 'q': vty + '::operator[]',
            'sig': vty + '::operator[](unsigned long)const', 'ty': ety}
    body = copy.deepcopy(s['body'])
    ok = [True]

    def rewrite(n):
        if isinstance(n, dict):
            if n.get('k') == 'Call' and n.get('kind') == 'op' and n.get('op') in ('*', '->') and len(n.get('args', [])) == 1 \
                    and ir.strip_casts(n['args'][0]).get('id') == d['id']:
                n.clear()
                n.update(copy.deepcopy(elem))
                return
            if n.get('k') == 'Ref' and n.get('id') == d['id']:
                ok[0] = False
                return
            for v in list(n.values()):
                if isinstance(v, (dict, list)):
                    rewrite(v)
        elif isinstance(n, list):
            for v in n:
                rewrite(v)
    rewrite(body)
    if not ok[0]:
        return None
    size = {'k': 'Call', 'kind': 'method', 'l': line, 'args': [], 'obj': copy.deepcopy(X), 'ty': 'unsigned long',
            'callee': {'cls': 'std::vector', 'const': True, 'name': 'size', 'q': vty + '::size', 'ret': 'unsigned long', 'sig': vty + '::size()const'}}
    return {'k': 'For', 'l': line, 'from_iterator': True,
            'init': {'k': 'Decl', 'l': line, 'decls': [{'id': iid, 'name': iname, 'ty': 'unsigned long', 'tyw': 'unsigned long', 'l': line,
                                                         'init': {'k': 'Lit', 'l': line, 'lk': 'int', 'ty': 'unsigned long', 'v': '0', 'val': '0'}}]},
            'cond': {'k': 'Bin', 'op': '<', 'l': line, 'ty': 'bool', 'lhs': copy.deepcopy(iref), 'rhs': size},
            'inc': {'k': 'Un', 'op': '++', 'post': True, 'l': line, 'ty': 'unsigned long', 'e': copy.deepcopy(iref)},
            'body': body}


def canonical_iterator_for(prog):
    n = 0
    for f in prog.all_functions(include_patterns=True):
        if f.body is None:
            continue
        changed = True
        while changed:
            changed = False
            for s in ir.walk_stmts(f.body):
                if s.get('k') == 'For' and not s.get('from_iterator') and not s.get('from_range'):
                    g = _iterator_for_as_for(s)
                    if g is not None:
                        s.clear()
                        s.update(g)
                        n += 1
                        changed = True
                        break
    return n


# ----------------------------------------------------------------------------- `if(c) continue;` in loop bodies
def _is_continue(s):
    if s is None:
        return False
    if s.get('k') == 'Continue':
        return True
    return s.get('k') == 'Compound' and len(s['body']) == 1 and s['body'][0].get('k') == 'Continue'


def canonical_continue(prog):
    """Inside a loop body `if(c) continue; rest...` becomes `if(!c) { rest... }` (loop bodies without `continue` can be
    summarised; function bodies keep the guard-clause form)."""
    n = 0
    for f in prog.all_functions(include_patterns=True):
        if f.body is None:
            continue
        changed = True
        while changed:
            changed = False
            for lp in ir.walk_stmts(f.body):
                if lp.get('k') not in ('For', 'While', 'Do') or not isinstance(lp.get('body'), dict):
                    continue
                body = lp['body']
                if body.get('k') != 'Compound':
                    continue
                seq = body['body']
                for i, s in enumerate(seq):
                    if s.get('k') == 'If' and s.get('else') is None and _is_continue(s.get('then')):
                        rest = seq[i + 1:]
                        neg = {'k': 'Un', 'op': '!', 'ty': 'bool', 'l': s.get('l'), 'e': s['cond']}
                        c0 = ir.strip(s['cond'])
                        if c0.get('k') == 'Un' and c0.get('op') == '!':
                            neg = c0['e']
                        elif c0.get('k') == 'Bin' and c0.get('op') in ('==', '!=') and 'double' not in str(ir.strip_casts(c0['lhs']).get('ty', '')) \
                                and 'float' not in str(ir.strip_casts(c0['lhs']).get('ty', '')):
                            neg = dict(c0)
                            neg['op'] = '!=' if c0['op'] == '==' else '=='
                        seq[i:] = [{'k': 'If', 'l': s.get('l'), 'cond': neg, 'then': {'k': 'Compound', 'l': s.get('l'), 'body': rest}, 'else': None}] if rest else []
                        n += 1
                        changed = True
                        break
                if changed:
                    break
    return n


# ----------------------------------------------------------------------------- std::any_of guard -> element loop
def _iter_offset(e):
    """begin()+k / end() of a plain container lvalue -> (container expression, offset expression or 'end')."""
    e = ir.strip_casts(e)
    while e.get('k') in ('Construct', 'Copy') and (e.get('args') or e.get('e')):
        e = ir.strip_casts(e['args'][0]) if e.get('k') == 'Construct' else ir.strip_casts(e['e'])
    if e.get('k') == 'Call' and e.get('kind') == 'method' and (e.get('callee') or {}).get('name') in ('begin', 'cbegin', 'end', 'cend'):
        ob = ir.strip(e['obj'])
        if ob.get('k') in ('Ref', 'Member'):
            return ob, ('end' if e['callee']['name'] in ('end', 'cend') else None)
        return None
    if e.get('k') == 'Call' and e.get('kind') == 'op' and e.get('op') == '+' and len(e.get('args', [])) == 2:
        b = _iter_offset(e['args'][0])
        if b is not None and b[1] is None:
            return b[0], e['args'][1]
    return None


def _any_of_parts(e):
    e = ir.strip_casts(e)
    if not (e.get('k') == 'Call' and (e.get('callee') or {}).get('q') == 'std::any_of' and len(e.get('args', [])) == 3):
        return None
    first, last = _iter_offset(e['args'][0]), _iter_offset(e['args'][1])
    lam = ir.strip_casts(e['args'][2])
    while lam.get('k') in ('Construct', 'Copy') and (lam.get('args') or lam.get('e')):
        lam = ir.strip_casts(lam['args'][0]) if lam.get('k') == 'Construct' else ir.strip_casts(lam['e'])
    if first is None or last is None or lam.get('k') != 'Lambda' or ir.show(first[0]) != ir.show(last[0]):
        return None
    fn = lam['fn']
    body = fn.get('body') or {}
    stmts = body.get('body', []) if body.get('k') == 'Compound' else []
    if len(fn.get('params', [])) != 1 or len(stmts) != 1 or stmts[0].get('k') != 'Return' or stmts[0].get('e') is None:
        return None
    return first[0], first[1], last[1], fn['params'][0], stmts[0]['e']


def any_of_guards(prog):
    """`if(std::any_of(c.begin()+a, c.begin()+b | c.end(), [..](const T& p){ return E(p); })) S` with S leaving the function on every
    path (an error exit, a return) is the element loop `for(i = a; i < b; i++) if(E(c[i])) S`; also when the any_of result is first
    stored in a local boolean that is only tested by the next statement."""
    n = 0
    for f in prog.all_functions(include_patterns=True):
        if f.body is None:
            continue
        for comp in list(ir.walk_stmts(f.body)):
            if comp.get('k') != 'Compound':
                continue
            seq = comp['body']
            i = 0
            while i < len(seq):
                s = seq[i]
                cond, then, span = None, None, 1
                if s.get('k') == 'If' and s.get('else') is None and _terminates(_as_compound(s['then'])):
                    cond, then = s['cond'], s['then']
                    c0 = ir.strip_casts(cond)
                    if c0.get('k') == 'Ref' and i > 0 and seq[i - 1].get('k') == 'Decl' and len(seq[i - 1]['decls']) == 1 \
                            and seq[i - 1]['decls'][0]['id'] == c0.get('id') and seq[i - 1]['decls'][0].get('init') is not None:
                        uses = sum(1 for x in _nodes(f.body) if x.get('k') == 'Ref' and x.get('id') == c0.get('id'))
                        if uses == 1:
                            cond, span = seq[i - 1]['decls'][0]['init'], 2
                parts = _any_of_parts(cond) if cond is not None else None
                if parts is None:
                    i += 1
                    continue
                cont, lo, hi, par, expr = parts
                l_ = s.get('l')
                iv = {'k': 'Ref', 'name': 'i__any', 'id': 'anyof%s_%s' % (f.d.get('id'), l_), 'ty': 'unsigned long', 'rk': 'local', 'l': l_}
                elem = {'k': 'Index', 'base': copy.deepcopy(cont), 'idx': copy.deepcopy(iv), 'ty': par.get('ty'), 'l': l_, 'q': 'std::vector::operator[]'}
                test = _subst(expr, {par['id']: elem})
                size = {'k': 'Call', 'kind': 'method', 'ty': 'unsigned long', 'l': l_, 'args': [], 'obj': copy.deepcopy(cont),
                        'callee': {'name': 'size', 'q': 'std::vector::size', 'cls': 'std::vector', 'const': True, 'ret': 'unsigned long', 'sig': 'std::vector::size()const'}}
                hi_e = size if hi == 'end' else copy.deepcopy(hi)
                lo_e = {'k': 'Lit', 'lk': 'int', 'v': '0', 'ty': 'unsigned long', 'l': l_} if lo is None else copy.deepcopy(lo)
                loop = {'k': 'For', 'l': l_,
                        'init': {'k': 'Decl', 'l': l_, 'decls': [{'name': 'i__any', 'id': iv['id'], 'ty': 'unsigned long', 'tyw': 'unsigned long', 'l': l_, 'init': lo_e}]},
                        'cond': {'k': 'Bin', 'op': '<', 'ty': 'bool', 'l': l_, 'lhs': copy.deepcopy(iv), 'rhs': hi_e},
                        'inc': {'k': 'Un', 'op': '++', 'post': True, 'ty': 'unsigned long', 'l': l_, 'e': copy.deepcopy(iv)},
                        'body': {'k': 'If', 'l': l_, 'cond': test, 'then': then, 'else': None}}
                start = i - (span - 1)
                seq[start:i + 1] = [loop]
                n += 1
                i = start + 1
    return n
